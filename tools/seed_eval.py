#!/usr/bin/env python3
"""Evaluate a seeded change produced by a breaker sub-agent WITHOUT touching /repo:
   seed_eval.py <tag> <check-pid> [<check-pid> ...] [--tier quick] [--skip-confirm]
 reads /tmp/seedout_<tag>/{patch.diff,demo.diff,meta.json}; creates a fresh worktree /tmp/ev_<tag> of /repo HEAD,
 (1) confirms the demonstration passes without the patch and fails with it, and that the touched crates' existing tests
     pass with the patch, (2) runs the named checks against the patched tree through a scratch harness copy
     (VERIF_HARNESS) with redirected work/evidence dirs, (3) stores everything under /verif/seeded/<tag>/ and removes
     the scratch trees."""
import json, os, re, shutil, subprocess, sys, time

def sh(cmd, cwd=None, env=None, timeout=7200):
    e = dict(os.environ); e.update(env or {})
    r = subprocess.run(cmd, shell=True, cwd=cwd, env=e, capture_output=True, text=True, timeout=timeout)
    return r.returncode, (r.stdout + r.stderr)

def main():
    a = sys.argv[1:]
    tag = a[0]
    tier = "quick"
    if "--tier" in a:
        tier = a[a.index("--tier") + 1]
    skip = "--skip-confirm" in a
    pids = [x for x in a[1:] if re.match(r"^C\d\d$", x)]
    src = "/tmp/seedout_" + tag
    out = "/verif/seeded/" + tag
    os.makedirs(out, exist_ok=True)
    for f in ("patch.diff", "demo.diff", "meta.json"):
        # (a re-evaluation keeps the stored meta.json: it carries the confirmation and the earlier rounds)
        if os.path.exists(os.path.join(src, f)) and not (f == "meta.json" and skip and os.path.exists(os.path.join(out, f))):
            shutil.copy(os.path.join(src, f), os.path.join(out, f))
    meta = json.load(open(os.path.join(out, "meta.json")))
    wt = "/tmp/ev_" + tag
    hd = "/tmp/h_ev_" + tag
    sh("git -C /repo worktree remove --force %s" % wt); shutil.rmtree(wt, ignore_errors=True)
    rc, o = sh("git -C /repo worktree add --detach %s HEAD" % wt)
    assert rc == 0, o
    log = {"tag": tag, "repo_head": sh("git -C /repo rev-parse --short HEAD")[1].strip(), "time": time.strftime("%F %T")}
    tgt = {"CARGO_TARGET_DIR": wt + "/target", "CARGO_NET_OFFLINE": "true"}
    try:
        if not skip:
            rc, o = sh("git apply %s/demo.diff" % out, cwd=wt); assert rc == 0, "demo.diff does not apply: " + o
            demo = meta["demo_cmd"].replace("/tmp/seed_" + tag, wt)
            demo = re.sub(r"^cd \S+ && ", "", demo)
            demo = re.sub(r"CARGO_TARGET_DIR=\S+ ", "", demo)
            rc0, o0 = sh(demo, cwd=wt, env=tgt)
            log["demo_without_patch"] = {"rc": rc0, "tail": o0[-600:]}
            rc, o = sh("git apply %s/patch.diff" % out, cwd=wt); assert rc == 0, "patch.diff does not apply: " + o
            rc1, o1 = sh(demo, cwd=wt, env=tgt)
            log["demo_with_patch"] = {"rc": rc1, "tail": o1[-900:]}
            crates = sorted({f.split("/")[0] for f in meta.get("files_changed", []) if f.startswith("fuel-")})
            if not crates:
                crates = sorted({m.group(1) for m in re.finditer(r"^\+\+\+ b/(fuel-[a-z]+)/", open(out + "/patch.diff").read(), re.M)})
            # existing tests of the touched crates (the demonstration file is excluded by reverting it first)
            sh("git apply -R %s/demo.diff" % out, cwd=wt)
            ex = {}
            for c in crates:
                rc2, o2 = sh("cargo test -p %s --offline 2>&1 | tail -40" % c, cwd=wt, env=tgt, timeout=14400)
                ok = ("test result: FAILED" not in o2) and ("error" not in o2.split("test result")[0][-2000:] if "test result" in o2 else False)
                ex[c] = {"ok": "test result: ok" in o2 and "FAILED" not in o2, "tail": o2[-500:]}
                if not ex[c]["ok"]:
                    # tests with a wall-clock timeout (ntest) fail on a loaded machine: re-run each failed test alone
                    failed = re.findall(r"^    (\S+::\S+)$", o2.split("failures:")[-1], re.M) if "failures:" in o2 else []
                    alone = {}
                    for t in failed[:5]:
                        rc3, o3 = sh("cargo test -p %s --offline --lib -- --exact %s 2>&1 | tail -5" % (c, t), cwd=wt, env=tgt, timeout=7200)
                        alone[t] = "test result: ok. 1 passed" in o3
                    if failed and len(failed) <= 5 and all(alone.values()):
                        ex[c]["ok"] = True
                        ex[c]["failed_under_load_but_pass_alone"] = failed
            log["existing_tests_with_patch"] = ex
            log["confirmed"] = (rc0 == 0 and rc1 != 0 and all(v["ok"] for v in ex.values()))
        else:
            rc, o = sh("git apply %s/patch.diff" % out, cwd=wt); assert rc == 0, "patch.diff does not apply: " + o
        shutil.rmtree(wt + "/target", ignore_errors=True)
        # ---- run the checks against the patched tree ----
        shutil.rmtree(hd, ignore_errors=True)
        sh("rsync -a --exclude target /verif/harness/ %s/" % hd)
        sh("sed -i 's#/repo/#%s/#g' %s/Cargo.toml" % (wt, hd))
        env = {"VERIF_HARNESS": hd, "VERIF_WORK": hd + "/work", "VERIF_EVID": hd + "/evidence", "VERIF_REPLAYS": hd + "/replays", "VERIF_REPO": wt}
        res = {}
        for pid in pids:
            t0 = time.time()
            rc, o = sh("/verif/bin/check %s --tier %s" % (pid, tier), cwd="/verif", env=env, timeout=14400)
            viol = [ln for ln in o.splitlines() if ln.startswith("VIOLATION") or ln.startswith("  class=")][:6]
            res[pid] = {"rc": rc, "wall_s": round(time.time() - t0), "lines": [v[:400] for v in viol], "tail": o[-400:] if rc not in (0, 1) else ""}
        log["checks"] = res
        log["detected_by"] = [p for p, v in res.items() if v["rc"] == 1]
    finally:
        sh("git -C /repo worktree remove --force %s" % wt); shutil.rmtree(wt, ignore_errors=True); shutil.rmtree(hd, ignore_errors=True)
        sh("git -C /repo worktree prune")
    prev = meta.get("evaluation")
    if skip and prev:
        # a re-run of the checks after they were strengthened: keep the confirmation and the history of earlier rounds
        for k in ("demo_without_patch", "demo_with_patch", "existing_tests_with_patch", "confirmed"):
            if k in prev and k not in log:
                log[k] = prev[k]
        log["earlier_rounds"] = (prev.get("earlier_rounds") or []) + [{"time": prev.get("time"), "checks": {p: v.get("rc") for p, v in (prev.get("checks") or {}).items()}, "detected_by": prev.get("detected_by")}]
    meta["evaluation"] = log
    json.dump(meta, open(os.path.join(out, "meta.json"), "w"), indent=1)
    print(json.dumps({k: log.get(k) for k in ("confirmed", "detected_by")}), json.dumps({p: (v["rc"], v["wall_s"]) for p, v in log.get("checks", {}).items()}))

if __name__ == "__main__":
    main()
