#!/usr/bin/env python3
"""Write the prompt for a fresh 'breaker' sub-agent: usage mk_breaker.py <PID> <k>  -> prints the prompt path"""
import json, sys, os
pid, k = sys.argv[1], sys.argv[2]
props = {json.loads(l)["id"]: json.loads(l) for l in open("/verif/properties.jsonl")}
p = props[pid]
tag = "%s_%s" % (pid, k)
txt = open("/verif/docs/prompts/breaker_template.txt").read() % dict(
    wt="/tmp/seed_" + tag, out="/tmp/seedout_" + tag, pid=pid, title=p["title"], statement=p["statement"],
    quant=p["quantifier"]["text"], files=", ".join(p["anchors"]["files"]))
os.makedirs("/tmp/seedprompts", exist_ok=True)
path = "/tmp/seedprompts/%s.txt" % tag
open(path, "w").write(txt)
print(path)
