#!/usr/bin/env python3
"""Print the markdown table of DESIGN.md section 9.6 from /verif/seeded/*/meta.json."""
import glob, json, os
rows = []
for d in sorted(glob.glob("/verif/seeded/*/")):
    tag = os.path.basename(d.rstrip("/"))
    try:
        m = json.load(open(d + "meta.json"))
    except Exception:
        continue
    ev = m.get("evaluation") or {}
    checks = ev.get("checks") or {}
    det = ", ".join(ev.get("detected_by") or []) or "—"
    ran = ", ".join("%s:%s" % (k, "VIOLATION" if v.get("rc") == 1 else ("ok" if v.get("rc") == 0 else "tool-error rc=%s" % v.get("rc"))) for k, v in sorted(checks.items()))
    files = ", ".join(sorted({f for f in m.get("files_changed", [])}))[:90]
    summ = " ".join((m.get("summary") or "").split())
    summ = summ[:260] + ("…" if len(summ) > 260 else "")
    rows.append("| %s | %s | %s | %s | %s | %s |" % (tag, m.get("property"), "yes" if ev.get("confirmed") else "NO", det, ran, summ.replace("|", "/")))
print("| seed | property | confirmed (demo fails with / passes without; existing tests pass) | detected by | checks run | change |")
print("|---|---|---|---|---|---|")
print("\n".join(rows))
