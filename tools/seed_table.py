#!/usr/bin/env python3
"""Print the markdown table of DESIGN.md section 9.6 from /verif/seeded/*/meta.json."""
import glob, json, os
rows = []
for d in sorted(glob.glob("/verif/seeded/*/")):
    tag = os.path.basename(d.rstrip("/"))
    try:
        m = json.load(open(d + "meta.json"))
    except Exception:
        continue
    ev = m.get("evaluation") or {}
    checks = ev.get("checks") or {}
    rounds = ev.get("earlier_rounds") or []
    allr = list(rounds) + [{"detected_by": ev.get("detected_by")}]
    detset = []
    for r in allr:
        for p in (r.get("detected_by") or []):
            if p not in detset:
                detset.append(p)
    det = ", ".join(detset) or "—"
    first = "yes" if (allr[0].get("detected_by")) else "no (check strengthened, %d round%s)" % (len(allr), "s" if len(allr) > 1 else "")
    ran = ", ".join("%s:%s" % (k, "VIOLATION" if v.get("rc") == 1 else ("ok" if v.get("rc") == 0 else "tool-error rc=%s" % v.get("rc"))) for k, v in sorted(checks.items()))
    files = ", ".join(sorted({f for f in m.get("files_changed", [])}))[:90]
    summ = " ".join((m.get("summary") or "").split())
    summ = summ[:260] + ("…" if len(summ) > 260 else "")
    rows.append("| %s | %s | %s | %s | %s | %s | %s |" % (tag, m.get("property"), "yes" if ev.get("confirmed") else "NO", first, det, ran, summ.replace("|", "/")))
print("| seed | property | confirmed (demo fails with / passes without; existing tests pass) | caught in the first round | detected by | checks run (last round) | change |")
print("|---|---|---|---|---|---|---|")
print("\n".join(rows))
