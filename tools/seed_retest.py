#!/usr/bin/env python3
"""seed_retest.py <tag>: for a seeded change whose confirmation failed only because existing tests with a wall-clock
timeout failed on the loaded machine, re-run exactly those tests alone (fresh worktree + patch) and update meta.json."""
import json, os, re, shutil, subprocess, sys
tag = sys.argv[1]
out = "/verif/seeded/" + tag
meta = json.load(open(out + "/meta.json"))
ev = meta["evaluation"]
wt = "/tmp/rt_" + tag
def sh(cmd, cwd=None, env=None):
    e = dict(os.environ); e.update(env or {})
    r = subprocess.run(cmd, shell=True, cwd=cwd, env=e, capture_output=True, text=True)
    return r.returncode, r.stdout + r.stderr
sh("git -C /repo worktree remove --force " + wt); shutil.rmtree(wt, ignore_errors=True)
rc, o = sh("git -C /repo worktree add --detach %s HEAD" % wt); assert rc == 0, o
try:
    rc, o = sh("git apply %s/patch.diff" % out, cwd=wt); assert rc == 0, o
    tgt = {"CARGO_TARGET_DIR": wt + "/target", "CARGO_NET_OFFLINE": "true"}
    allok = True
    for c, v in ev["existing_tests_with_patch"].items():
        if v["ok"]:
            continue
        failed = re.findall(r"^    (\S+::\S+)$", v["tail"].split("failures:")[-1], re.M) if "failures:" in v["tail"] else []
        alone = {}
        for t in failed[:5]:
            rc3, o3 = sh("cargo test -p %s --offline --lib -- --exact %s 2>&1 | tail -5" % (c, t), cwd=wt, env=tgt)
            alone[t] = "test result: ok. 1 passed" in o3
        if failed and all(alone.values()):
            v["ok"] = True
            v["failed_under_load_but_pass_alone"] = failed
        else:
            allok = False
        print(c, alone)
    ev["confirmed"] = bool(ev["demo_without_patch"]["rc"] == 0 and ev["demo_with_patch"]["rc"] != 0 and allok)
    json.dump(meta, open(out + "/meta.json", "w"), indent=1)
    print("confirmed:", ev["confirmed"])
finally:
    sh("git -C /repo worktree remove --force " + wt); shutil.rmtree(wt, ignore_errors=True); sh("git -C /repo worktree prune")
