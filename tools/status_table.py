#!/usr/bin/env python3
"""Print the per-property status table of DESIGN.md section 9.7 from MANIFEST.json, evidence/*.json, work/thorough_summary.txt,
seeded/*/meta.json and known_findings.json."""
import glob, json, os, re
R = "/verif"
man = json.load(open(R + "/MANIFEST.json"))
props = {json.loads(l)["id"]: json.loads(l) for l in open(R + "/properties.jsonl")}
kf = json.load(open(R + "/known_findings.json"))
kf = kf if isinstance(kf, list) else kf.get("findings", [])
tho = {}
if os.path.exists(R + "/work/thorough_summary.txt"):
    for l in open(R + "/work/thorough_summary.txt"):
        m = re.match(r"(C\d\d) rc=(\d+) wall=(\d+)s", l)
        if m:
            tho[m.group(1)] = (int(m.group(2)), int(m.group(3)))
seeds = {}
for d in sorted(glob.glob(R + "/seeded/*/meta.json")):
    m = json.load(open(d))
    ev = m.get("evaluation") or {}
    tag = os.path.basename(os.path.dirname(d))
    seeds.setdefault(m.get("property"), []).append("%s%s" % (tag, "✓" if ev.get("detected_by") else "✗"))
print("| id | level | states / events explored (quick) | quick s | thorough (rc, s) | findings (fixed / known) | seeds (✓ caught) |")
print("|---|---|---|---|---|---|---|")
for c in man["checks"]:
    pid = c["property_id"]
    ev = {}
    try:
        ev = json.load(open(R + "/evidence/%s.json" % pid))
    except Exception:
        pass
    cov = ev.get("coverage", {})
    expl = "%s states, %s trace events, %s replayed" % (cov.get("model_states", cov.get("states", "-")), cov.get("trace_events_validated", "-"), cov.get("behaviours_replayed", "-"))
    fx = len([k for k in kf if k.get("property") == pid and k.get("status") == "fixed"])
    kn = len([k for k in kf if k.get("property") == pid and k.get("status") == "known"])
    t = tho.get(pid)
    print("| %s | %s | %s | %s | %s | %d / %d | %s |" % (pid, c["level_claimed"]["category"], expl, int(ev.get("wall_s", 0)) if ev.get("tier") == "quick" else "(thorough run last)", "%d, %d" % t if t else "-", fx, kn, " ".join(seeds.get(pid, [])) or "-"))
