#!/usr/bin/env python3
"""Leg M for contract calls / returns and asset movement: FuelVM_Calls_MC (C27 C34 C30; also C26 C24 inside calls).

    run_mc(tier) -> dict(ok, states, distinct, wall, violated=[...], witnesses=[...], missing_witnesses=[...], ...)

* main run: TLC explores every program over the tier's instruction alphabet up to the depth bound and checks all INVARIANTS /
  PROPERTIES of the tier's cfg (`FuelVM_Calls_MC.cfg` quick, `FuelVM_Calls_MC_thorough.cfg` thorough).  `violated` lists the
  invariant / action property TLC reported (empty = none).
* reachability witnesses (vacuity control): every INVARIANT `NoX` of `FuelVM_Calls_MC_reach.cfg` is the NEGATION of a behaviour
  X that must exist.  The main run observes them on the fly (invariant `Observe` sets a TLC register per witness, the
  POSTCONDITION `ReportWitnesses` prints the set) - no extra TLC runs.  `python3 leg.py witnesses [NoX ...]` (and the fall-back
  when the WITNESSED line is missing) checks them the slow, tool-independent way: one TLC run per negated invariant, each MUST
  be reported violated.  `witnesses` lists those found, `missing_witnesses` the others (=> vacuous model, ok = False).

The spec directory defaults to the directory next to this file (`spec/`); the lead can point SPEC_DIR (or the `spec_dir`
argument) at /verif/spec/vm once the module is merged there.  TLC is always started through pylib/vlib.tlc (Java overrides,
library path, timeout, clean-up); module resolution prefers the module's own directory, so a private copy of Vm*.tla next to
FuelVM_Calls_MC.tla (as in work/mccalls/spec and in the mutation runs) shadows /verif/spec/vm.
"""
import os
import re
import sys
import time
from concurrent.futures import ThreadPoolExecutor

HERE = os.path.dirname(os.path.abspath(__file__))
sys.path.insert(0, os.path.join(os.path.dirname(os.path.dirname(HERE)), "pylib"))
import vlib  # noqa: E402

SPEC_DIR = os.environ.get("MCCALLS_SPEC") or os.path.join(vlib.SPEC, "vm")
MODULE = "FuelVM_Calls_MC.tla"
CFG = {"quick": "FuelVM_Calls_MC.cfg", "thorough": "FuelVM_Calls_MC_thorough.cfg"}
REACH_CFG = "FuelVM_Calls_MC_reach.cfg"
# a run with fewer distinct states than this did not explore what the cfg says it explores
MIN_DISTINCT = {"quick": 10000, "thorough": 100000}
TIMEOUT = {"quick": 600, "thorough": 1500}
# witnesses a tier's alphabet cannot produce (the quick alphabet has no SMO)
# JVM tuning only (TLC semantics unaffected): few GC threads (the machine is shared); C1-only JIT pays off in the short quick run
JVM = {"quick": "-XX:ParallelGCThreads=4 -XX:TieredStopAtLevel=1", "thorough": "-XX:ParallelGCThreads=4"}
NOT_IN_TIER = {"quick": {"MessageOut"}, "thorough": set()}
# which property each invariant / action property speaks for (for the lead's evidence records)
CLAIMS = {
    "C27": ["Conserved", "NoOtherAsset", "FinalConserved", "ReceiptsMove", "MovesHaveReceipt"],
    "C34": ["FrameIntact", "FramesNested", "StackOrder", "FramesStable", "CallStep", "RetStep", "TopReturn", "CallerStackUnchanged"],
    "C30": ["ContextsAreInputs", "NonInputPanics", "TouchesInputsOnly", "PanicChangesNothing", "BalReadsInputs"],
    "C26": ["GasInv", "GasLedger", "GasNeverUp", "ForwardBounded", "ChargeBoth"],
    "C24": ["WritesOwned", "CallerStackUnchanged", "ZeroOutside"],
}


def _names(cfg_text, key):
    m = re.search(r"(?m)^%s\s+(.*)$" % key, cfg_text)
    return m.group(1).split() if m else []


def witness_names(spec_dir=None):
    with open(os.path.join(spec_dir or SPEC_DIR, REACH_CFG)) as f:
        return _names(f.read(), "INVARIANTS")


def _violated(res):
    """names TLC reported as violated (one per run: TLC stops at the first)"""
    out = res.out
    v = re.findall(r"Invariant (\S+) is violated", out) + re.findall(r"Action property (\S+) is violated", out)
    if not v and res.invariant_violated:
        v = [res.invariant_violated]
    if not v and re.search(r"Temporal properties were violated", out):
        v = ["<temporal>"]
    return sorted(set(x.rstrip(".") for x in v))


def run_main(tier="quick", spec_dir=None, workers=6, cfg=None, tag=None):
    d = spec_dir or SPEC_DIR
    res = vlib.tlc(os.path.join(d, MODULE), cfg=cfg or CFG[tier], workers=workers, timeout=TIMEOUT[tier], xmx="6g",
                   tag=tag or ("mccalls_%s_%d" % (tier, os.getpid())), env={"JAVA_TOOL_OPTIONS": JVM[tier]})
    return res


def _one_witness(args):
    d, base_txt, name, workers = args
    cfg = "FuelVM_Calls_MC_reach_%s_%d.gen.cfg" % (name, os.getpid())
    txt = re.sub(r"(?m)^INVARIANTS\s+.*$", "INVARIANTS " + name, base_txt)
    path = os.path.join(d, cfg)
    with open(path, "w") as f:
        f.write(txt)
    try:
        res = vlib.tlc(os.path.join(d, MODULE), cfg=cfg, workers=workers, timeout=900, xmx="3g",
                       tag="mccalls_w_%s_%d" % (name, os.getpid()))
    finally:
        try:
            os.remove(path)
        except OSError:
            pass
    hit = name in _violated(res)
    err = None
    if not hit and not res.ok:
        err = vlib.tlc_fail_text(res, 30)
    return dict(name=name, violated=hit, distinct=res.distinct, generated=res.generated, wall=round(res.wall, 1), error=err)


def run_witnesses(spec_dir=None, parallel=3, workers=2, only=None):
    d = spec_dir or SPEC_DIR
    with open(os.path.join(d, REACH_CFG)) as f:
        base = f.read()
    names = [n for n in _names(base, "INVARIANTS") if only is None or n in only]
    with ThreadPoolExecutor(max_workers=parallel) as ex:
        return list(ex.map(_one_witness, [(d, base, n, workers) for n in names]))


def witnessed_in_run(res):
    """names printed by the POSTCONDITION ReportWitnesses of the main run; None when the line is absent"""
    m = re.search(r'<<\s*"WITNESSED",\s*\{(.*?)\}\s*>>', res.out, re.S)
    if not m:
        return None
    return sorted(set(re.findall(r'"(\w+)"', m.group(1))))


def run_mc(tier="quick", spec_dir=None, workers=6, witnesses=True):
    """Leg M of C27 / C34 / C30 (and the call-related parts of C26 / C24)."""
    tier = "thorough" if tier == "thorough" else "quick"
    t0 = time.time()
    res = run_main(tier, spec_dir, workers)
    violated = _violated(res)
    out = dict(tier=tier, states=res.generated, distinct=res.distinct, depth=res.depth, main_wall=round(res.wall, 1),
               violated=violated, witnesses=[], missing_witnesses=[], witness_runs=[], error=None, claims=CLAIMS)
    if not res.ok and not violated:
        out["error"] = vlib.tlc_fail_text(res, 60)
    if violated:
        out["counterexample"] = vlib.tlc_fail_text(res, 400)
    if res.ok and res.distinct < MIN_DISTINCT[tier]:
        out["error"] = "vacuous model run: only %d distinct states (expected >= %d)" % (res.distinct, MIN_DISTINCT[tier])
    if witnesses and res.ok:
        required = [n[2:] for n in witness_names(spec_dir) if n[2:] not in NOT_IN_TIER[tier]]     # "NoDepth2" -> "Depth2"
        seen = witnessed_in_run(res)
        if seen is not None:
            # observed during the main run itself (invariant Observe + POSTCONDITION ReportWitnesses)
            out["witnesses"] = [n for n in required if n in seen]
            out["missing_witnesses"] = [n for n in required if n not in seen]
        else:
            # fall back: one TLC run per negated invariant of FuelVM_Calls_MC_reach.cfg, each must be violated
            wr = run_witnesses(spec_dir)
            out["witness_runs"] = wr
            out["witnesses"] = [w["name"][2:] for w in wr if w["violated"]]
            out["missing_witnesses"] = [w["name"][2:] for w in wr if not w["violated"]]
    out["wall"] = round(time.time() - t0, 1)
    out["ok"] = bool(res.ok and not violated and not out["error"] and not out["missing_witnesses"])
    return out


def hook(chk, tier):
    """For checks/vm.py: run the leg inside a vlib.Check (`chk`); design-level failures are tool errors (DESIGN.md section 1)."""
    r = run_mc(tier)
    if r["violated"]:
        raise vlib.ToolError("FuelVM_Calls_MC violates %s at design level:\n%s" % (r["violated"], r.get("counterexample", "")[:6000]))
    if r["error"]:
        raise vlib.ToolError("FuelVM_Calls_MC: " + r["error"])
    if r["missing_witnesses"]:
        raise vlib.ToolError("vacuous model run: unreachable witnesses %s" % r["missing_witnesses"])
    chk.add("states", r["distinct"])
    chk.add("transitions", r["states"])
    chk.add("model_states", r["distinct"])
    chk.set("mc_calls", dict(tier=r["tier"], distinct=r["distinct"], generated=r["states"], depth=r["depth"], wall=r["wall"],
                             witnesses=r["witnesses"]))
    return r


if __name__ == "__main__":
    import json
    t = sys.argv[1] if len(sys.argv) > 1 else "quick"
    if t == "witnesses":
        r = run_witnesses(only=set(sys.argv[2:]) or None)
        print(json.dumps(r, indent=1))
        sys.exit(0 if all(w["violated"] for w in r) else 1)
    r = run_mc(t)
    r.pop("claims", None)
    print(json.dumps(r, indent=1))
    sys.exit(0 if r["ok"] else 1)
