"""Shared machinery for /verif checks: running TLC, building/running the Rust harness,
writing evidence, matching known findings, reporting violations.

Exit-code contract of every check (see DESIGN.md section 2.3):
  0  property held on everything explored (KNOWN-FINDING lines may have been printed)
  1  a violation not listed in known_findings.json; a line
     "VIOLATION property=<id> replay=<path>" was printed
  2  tool error / timeout / vacuous coverage / failed binding self-test
"""
import json
import os
import re
import shutil
import subprocess
import sys
import time

ROOT = os.path.dirname(os.path.dirname(os.path.abspath(__file__)))
REPO = os.environ.get("VERIF_REPO", "/repo")
SPEC = os.path.join(ROOT, "spec")
# scratch evaluation of a modified tree (tools/seed_eval.py) redirects work / evidence / replays so that it does not
# clobber the files of the checks running on /repo itself
WORK = os.environ.get("VERIF_WORK") or os.path.join(ROOT, "work")
EVID = os.environ.get("VERIF_EVID") or os.path.join(ROOT, "evidence")
REPLAYS = os.environ.get("VERIF_REPLAYS") or os.path.join(ROOT, "replays")
CLASSES = os.environ.get("VERIF_CLASSES") or os.path.join(ROOT, "build", "classes")   # override: a builder's private overrides
JAVA_SRC = os.environ.get("VERIF_JAVA") or os.path.join(SPEC, "java")
TLA_JAR = "/opt/veriftools/tla/tla2tools.jar"
CM_JAR = "/opt/veriftools/tla/CommunityModules-deps.jar"
HARNESS = os.environ.get("VERIF_HARNESS") or os.path.join(ROOT, "harness")  # override: a scratch copy built against a scratch worktree
HARNESS_BINDIR = os.path.join(HARNESS, "target", "release")


class ToolError(Exception):
    pass


def log(*a):
    print(*a, flush=True)


def seed():
    try:
        return int(os.environ.get("VERIF_SEED", "1"))
    except ValueError:
        return 1


def tier(argv_tier=None):
    t = argv_tier or os.environ.get("VERIF_TIER") or "quick"
    return "thorough" if t == "thorough" else "quick"


# ----------------------------------------------------------------------------------------
# Java overrides
# ----------------------------------------------------------------------------------------
def ensure_classes():
    src = [os.path.join(JAVA_SRC, f) for f in ("VerifOverrides.java", "VerifOps.java")]
    out = os.path.join(CLASSES, "VerifOps.class")
    if os.path.exists(out) and all(os.path.getmtime(out) >= os.path.getmtime(s) for s in src):
        return
    os.makedirs(CLASSES, exist_ok=True)
    r = subprocess.run(["javac", "-cp", TLA_JAR, "-d", CLASSES] + src, capture_output=True, text=True)
    if r.returncode != 0:
        raise ToolError("javac failed: " + r.stderr)


# ----------------------------------------------------------------------------------------
# TLC
# ----------------------------------------------------------------------------------------
class TlcResult:
    def __init__(self):
        self.rc = None
        self.out = ""
        self.generated = 0
        self.distinct = 0
        self.depth = 0
        self.ok = False  # finished, no error
        self.invariant_violated = None
        self.rejected = False  # trace postcondition failed
        self.matched = None
        self.first_unmatched = None
        self.coverage = {}
        self.wall = 0.0
        self.printed = []  # lines printed by PrintT that start with a tuple/"<<"

    def summary(self):
        return dict(rc=self.rc, generated=self.generated, distinct=self.distinct, depth=self.depth,
                    ok=self.ok, invariant_violated=self.invariant_violated, rejected=self.rejected,
                    matched=self.matched, wall=round(self.wall, 2))


def tlc(module_path, cfg=None, workers=1, env=None, timeout=600, simulate=None, depth=None,
        xmx="4g", deque=False, coverage=False, tag=None, seedval=None, extra=None, dump_out=None,
        xss="1g"):
    """Run TLC on module_path (absolute or relative to SPEC). Returns TlcResult."""
    ensure_classes()
    if not os.path.isabs(module_path):
        module_path = os.path.join(SPEC, module_path)
    d = os.path.dirname(module_path)
    mod = os.path.basename(module_path)
    if cfg is None:
        cfg = mod.replace(".tla", ".cfg")
    tag = tag or (mod.replace(".tla", "") + "_" + str(os.getpid()))
    meta = os.path.join(WORK, "tlc_" + tag)
    shutil.rmtree(meta, ignore_errors=True)
    os.makedirs(meta, exist_ok=True)
    libs = ":".join([os.path.join(SPEC, x) for x in ("lib", "merkle", "tx", "vm", "asm", "crypto")])
    jopts = ["-XX:+UseParallelGC", "-Xmx" + xmx, "-Xss" + xss,
             "-Dtlc2.overrides.TLCOverrides=tlc2.overrides.TLCOverrides:VerifOverrides",
             "-DTLA-Library=" + libs]
    if deque:
        jopts.append("-Dtlc2.tool.queue.IStateQueue=StateDeque")
    cmd = ["java"] + jopts + ["-cp", ":".join([TLA_JAR, CM_JAR, CLASSES]), "tlc2.TLC",
                              "-workers", str(workers), "-metadir", meta, "-cleanup",
                              "-noGenerateSpecTE", "-config", cfg]
    if coverage:
        cmd += ["-coverage", "1"]
    if simulate is not None:
        cmd += ["-simulate", "num=%d" % simulate]
        if depth:
            cmd += ["-depth", str(depth)]
    if seedval is not None:
        cmd += ["-seed", str(seedval)]
    if extra:
        cmd += extra
    cmd.append(mod)
    e = dict(os.environ)
    e.pop("JAVA_TOOL_OPTIONS", None)
    if env:
        e.update({k: str(v) for k, v in env.items()})
    t0 = time.time()
    res = TlcResult()
    try:
        if dump_out:
            with open(dump_out, "w") as fo:
                p = subprocess.run(cmd, cwd=d, env=e, stdout=fo, stderr=subprocess.STDOUT, timeout=timeout)
            res.rc = p.returncode
            # read only the non-bulk lines for parsing
            with open(dump_out, errors="replace") as fi:
                keep = [ln for ln in fi if not ln.startswith(('<<"REPLAY"', '"REPLAY'))]
            res.out = "".join(keep[-4000:]) if len(keep) > 4000 else "".join(keep)
        else:
            p = subprocess.run(cmd, cwd=d, env=e, capture_output=True, text=True, timeout=timeout)
            res.rc = p.returncode
            res.out = p.stdout + p.stderr
    except subprocess.TimeoutExpired:
        shutil.rmtree(meta, ignore_errors=True)
        raise ToolError("TLC timeout after %ss on %s" % (timeout, mod))
    res.wall = time.time() - t0
    shutil.rmtree(meta, ignore_errors=True)
    out = res.out
    m = re.search(r"(\d+) states generated, (\d+) distinct states found", out)
    if m:
        res.generated, res.distinct = int(m.group(1)), int(m.group(2))
    m = re.search(r"depth of the complete state graph search is (\d+)", out)
    if m:
        res.depth = int(m.group(1))
    m = re.search(r"Invariant (\S+) is violated", out)
    if m:
        res.invariant_violated = m.group(1)
    m = re.search(r"Action property (\S+) is violated", out)
    if m:
        res.invariant_violated = m.group(1)
    if "TRACE-REJECTED" in out:
        res.rejected = True
        m = re.search(r'"TRACE-REJECTED", "matched", (\d+), "of", (\d+)', out)
        if m:
            res.matched = int(m.group(1))
        m = re.search(r'<<"FIRST-UNMATCHED", (.*?)>>\s*$', out, re.S | re.M)
        i = out.find('<<"FIRST-UNMATCHED"')
        if i >= 0:
            res.first_unmatched = out[i:i + 3000]
    res.ok = (res.rc == 0 and "Error:" not in out and not res.rejected and res.invariant_violated is None
              and ("Model checking completed. No error has been found" in out or simulate is not None
                   or "finished" in out.lower()))
    for ln in out.splitlines():
        if ln.startswith("<<") or ln.startswith("\"") or ln.startswith("["):
            res.printed.append(ln)
    if coverage:
        for m in re.finditer(r"<(\w+) line \d+, col \d+ to line \d+, col \d+ of module (\w+)>: (\d+):(\d+)", out):
            res.coverage[m.group(2) + "!" + m.group(1)] = (int(m.group(3)), int(m.group(4)))
    return res


def tlc_fail_text(res, n=60):
    lines = [ln for ln in res.out.splitlines()
             if not ln.startswith(("Parsing file", "Semantic processing", "Linting of"))]
    idx = [i for i, ln in enumerate(lines) if ln.startswith("Error:")]
    if idx:
        return "\n".join(lines[idx[0]:idx[0] + n])
    return "\n".join(lines[-n:])


# ----------------------------------------------------------------------------------------
# Harness
# ----------------------------------------------------------------------------------------
_built = set()


def harness_build(bin="vh_merkle", timeout=3000):
    """cargo build --release of one harness binary against /repo's current working tree."""
    if bin in _built:
        return
    lock = os.path.join(HARNESS, "Cargo.lock")
    if not os.path.exists(lock):
        shutil.copy(os.path.join(REPO, "Cargo.lock"), lock)
    e = dict(os.environ)
    e["CARGO_NET_OFFLINE"] = "true"
    t0 = time.time()
    r = subprocess.run(["cargo", "build", "--release", "--offline", "--bin", bin], cwd=HARNESS, env=e,
                       capture_output=True, text=True, timeout=timeout)
    if r.returncode != 0 and ("undefined hidden symbol" in r.stderr or "undefined symbol" in r.stderr or "ld returned" in r.stderr):
        # stale / corrupted artefacts of the harness itself (e.g. copied mid-build): drop them and retry once
        for pat in ("deps/%s-*" % bin, "deps/vh-*", ".fingerprint/vh-*", "incremental"):
            import glob
            for f in glob.glob(os.path.join(HARNESS, "target", "release", pat)):
                shutil.rmtree(f, ignore_errors=True) if os.path.isdir(f) else os.remove(f)
        r = subprocess.run(["cargo", "build", "--release", "--offline", "--bin", bin], cwd=HARNESS, env=e,
                           capture_output=True, text=True, timeout=timeout)
    if r.returncode != 0:
        # a tree that does not build is a tool error, not a violation
        raise ToolError("harness build failed:\n" + r.stderr[-6000:])
    _built.add(bin)
    log("[build] %s ok in %.1fs" % (bin, time.time() - t0))


def vh(args, timeout=1800, stdin=None, env=None, bin="vh_merkle"):
    harness_build(bin)
    e = dict(os.environ)
    e["VERIF_SEED"] = str(seed())
    if env:
        e.update({k: str(v) for k, v in env.items()})
    r = subprocess.run([os.path.join(HARNESS_BINDIR, bin)] + [str(a) for a in args], capture_output=True, text=True,
                       timeout=timeout, input=stdin, env=e)
    if r.returncode not in (0,):
        raise ToolError("harness %s %s failed rc=%s:\n%s" % (bin, args, r.returncode, (r.stderr or "")[-4000:]))
    return r.stdout


# ----------------------------------------------------------------------------------------
# Known findings, violations, evidence
# ----------------------------------------------------------------------------------------
def known_findings():
    p = os.path.join(ROOT, "known_findings.json")
    if not os.path.exists(p):
        return []
    with open(p) as f:
        return json.load(f).get("findings", [])


class Check:
    """Accumulates the result of one check run and writes evidence / prints verdict lines."""

    def __init__(self, pid, level, tier_, argv=None):
        self.pid = pid
        self.level = level
        self.tier = tier_
        self.seed = seed()
        self.t0 = time.time()
        self.cov = {}
        self.assumptions = []
        self.violations = []  # dicts: class, replay, detail
        self.known_hits = {}
        self.samples = []
        os.makedirs(EVID, exist_ok=True)
        os.makedirs(REPLAYS, exist_ok=True)
        os.makedirs(WORK, exist_ok=True)

    def add(self, key, n):
        self.cov[key] = self.cov.get(key, 0) + n

    def set(self, key, v):
        self.cov[key] = v

    def sample(self, s, cap=6):
        if len(self.samples) < cap:
            self.samples.append(s)

    def violation(self, cls, replay_src=None, detail=None):
        """Record a violation of class `cls`. replay_src: a file to copy under replays/ or None."""
        for kf in known_findings():
            if kf.get("property") == self.pid and kf.get("status") == "known" and kf.get("class") == cls:
                if cls not in self.known_hits:
                    self.known_hits[cls] = kf.get("what", cls)
                return
        dst = os.path.join(REPLAYS, "%s_%s_%d.json" % (self.pid, self.tier, len(self.violations)))
        rec = dict(property=self.pid, **{"class": cls}, detail=detail, seed=self.seed, tier=self.tier)
        if replay_src and os.path.exists(str(replay_src)):
            keep = os.path.join(REPLAYS, "%s_%s_%d.%s" % (self.pid, self.tier, len(self.violations),
                                                          os.path.basename(str(replay_src))))
            try:
                shutil.copy(replay_src, keep)
                rec["input"] = keep
            except OSError:
                pass
        with open(dst, "w") as f:
            json.dump(rec, f, indent=1, default=str)
        self.violations.append(dict(cls=cls, replay=dst, detail=detail))

    def finish(self):
        cov = dict(self.cov)
        cov.setdefault("samples", self.samples or ["(none recorded)"])
        cov.setdefault("rule", "")
        if self.level == "model_checking":
            cov.setdefault("states", 0)
            cov.setdefault("transitions", 0)
            cov.setdefault("traces_validated_against_impl", 0)
        cov.setdefault("evaluations", 0)
        cov.setdefault("distinct_nontrivial", 0)
        ev = dict(property_id=self.pid, tier=self.tier, seed=self.seed, level=self.level, coverage=cov,
                  assumptions=self.assumptions, wall_s=round(time.time() - self.t0, 2),
                  violations=len(self.violations), known_findings_hit=sorted(self.known_hits))
        with open(os.path.join(EVID, self.pid + ".json"), "w") as f:
            json.dump(ev, f, indent=1, default=str)
        for cls, what in sorted(self.known_hits.items()):
            log("KNOWN-FINDING: property=%s %s [%s]" % (self.pid, what, cls))
        if self.violations:
            for v in self.violations[:20]:
                log("VIOLATION property=%s replay=%s" % (self.pid, v["replay"]))
                log("  class=%s detail=%s" % (v["cls"], json.dumps(v["detail"], default=str)[:1500]))
            return 1
        log("OK property=%s tier=%s wall=%.1fs coverage=%s" % (
            self.pid, self.tier, time.time() - self.t0,
            json.dumps({k: v for k, v in cov.items() if k not in ("samples", "rule")}, default=str)[:600]))
        return 0


def run_check(fn, pid, level, tier_):
    """Wrap a check body: fn(chk) fills chk; tool errors -> exit 2."""
    chk = Check(pid, level, tier_)
    try:
        fn(chk)
    except ToolError as e:
        log("TOOL-ERROR property=%s: %s" % (pid, e))
        return 2
    except subprocess.TimeoutExpired as e:
        log("TOOL-ERROR property=%s: timeout %s" % (pid, e))
        return 2
    return chk.finish()


def write_ndjson(path, recs):
    with open(path, "w") as f:
        for r in recs:
            f.write(json.dumps(r, separators=(",", ":")) + "\n")


def read_ndjson(path):
    out = []
    with open(path) as f:
        for ln in f:
            ln = ln.strip()
            if ln:
                out.append(json.loads(ln))
    return out


def parse_tla_printed(line):
    """Parse a line printed by PrintT(<<"TAG", "json-string">>) -> (tag, obj)."""
    m = re.match(r'^<<"(\w+)", "(.*)">>$', line)
    if not m:
        return None
    body = m.group(2).encode().decode("unicode_escape") if "\\" in m.group(2) else m.group(2)
    try:
        return m.group(1), json.loads(body)
    except ValueError:
        return None
