"""Generic legs shared by all checks: trace validation with segment isolation, binding
self-test, model checking with coverage/vacuity test, spec->impl replay plumbing."""
import json
import os
import random
import re

import vlib
from vlib import ToolError, log


def split_segments(events):
    """Segments are delimited by {"ev":"Seg"} events (the marker starts a segment)."""
    segs, cur = [], []
    for e in events:
        if e.get("ev") == "Seg" and cur:
            segs.append(cur)
            cur = []
        cur.append(e)
    if cur:
        segs.append(cur)
    return segs


def event_class(dom, e):
    parts = [dom, str(e.get("ev"))]
    for k in ("op", "impl", "where", "tag", "kind", "type"):
        if k in e and isinstance(e[k], (str, int)):
            parts.append(str(e[k]))
    return "/".join(parts)


def _validate_group(dom, spec, segs, path, tag, timeout, xmx, max_rejections, class_fn, env, cfg):
    """Validate one group of segments in its own TLC process. Returns dict(states, nev, nseg, violations[])."""
    states = 0
    rejections = 0
    viol = []
    cur_path = path
    vlib.write_ndjson(cur_path, [x for s in segs for x in s])
    while True:
        e = {"TRACE": cur_path}
        if env:
            e.update(env)
        res = vlib.tlc(spec, cfg=cfg, workers=1, deque=True, env=e, timeout=timeout, xmx=xmx, tag=tag)
        states += res.distinct
        if res.ok:
            break
        flat = [x for s in segs for x in s]
        if res.invariant_violated:
            idx = max(res.depth - 1, 0)
            ev = flat[min(idx, len(flat) - 1)] if flat else {}
            cls = (class_fn or event_class)(dom, ev) + "/invariant:" + res.invariant_violated
            viol.append((cls, cur_path, dict(leg="T", invariant=res.invariant_violated, index=idx, event=_short(ev))))
            bad = idx
        elif res.rejected and res.matched is not None:
            bad = res.matched  # 0-based index of the first unmatched event
            ev = flat[bad] if bad < len(flat) else {}
            prev = flat[bad - 1] if 0 < bad <= len(flat) else {}
            cls = (class_fn or event_class)(dom, ev)
            viol.append((cls, cur_path, dict(leg="T", index=bad, event=_short(ev), previous_event=_short(prev, 600), spec=spec)))
        else:
            raise ToolError("TLC failed on trace %s:\n%s" % (cur_path, vlib.tlc_fail_text(res)))
        rejections += 1
        pos = 0
        keep = []
        for s in segs:
            if not (pos <= bad < pos + len(s)):
                keep.append(s)
            pos += len(s)
        segs = keep
        if rejections >= max_rejections or not segs:
            break
        cur_path = path + ".rest%d" % rejections
        vlib.write_ndjson(cur_path, [x for s in segs for x in s])
    return dict(states=states, nev=sum(len(s) for s in segs), nseg=len(segs), violations=viol)


def validate(chk, dom, spec, trace_path, tag=None, timeout=1500, xmx="4g", max_rejections=8,
             class_fn=None, env=None, cfg=None, parallel=1, groups=None):
    """Validate an ndjson trace against a trace spec. Rejected segments are reported as violations
    (or known findings) and removed so the rest of the trace is still checked. With parallel > 1 the
    segments are distributed over several TLC processes (segments are independent by construction).
    Returns (events_validated, segments_validated, tlc_states)."""
    from concurrent.futures import ThreadPoolExecutor
    events = vlib.read_ndjson(trace_path)
    total_events = len(events)
    segs = split_segments(events)
    # `groups` (default: = parallel) contiguous groups of roughly equal event count, at most `parallel` TLC processes at a time
    # (smaller groups bound the heap one TLC process needs: the whole group is one TLA+ value)
    n = max(1, min(groups or parallel, len(segs)))
    groups = [[] for _ in range(n)]
    target = total_events / float(n)
    gi, acc = 0, 0
    for s in segs:
        if acc >= target * (gi + 1) and gi < n - 1:
            gi += 1
        groups[gi].append(s)
        acc += len(s)
    groups = [g for g in groups if g]
    base = (tag or dom) + "_trace_%d" % os.getpid()

    def work(k):
        return _validate_group(dom, spec, groups[k], trace_path + ".g%d" % k, "%s_g%d" % (base, k), timeout, xmx,
                               max_rejections, class_fn, env, cfg)
    if len(groups) == 1:
        results = [work(0)]
    else:
        with ThreadPoolExecutor(max_workers=max(1, min(parallel, len(groups)))) as ex:
            results = list(ex.map(work, range(len(groups))))
    states = nev = nseg = 0
    for k, r in enumerate(results):
        states += r["states"]
        nev += r["nev"]
        nseg += r["nseg"]
        for cls, path, detail in r["violations"]:
            chk.violation(cls, path, detail)
        for f in [trace_path + ".g%d" % k] + [trace_path + ".g%d.rest%d" % (k, i) for i in range(1, max_rejections + 1)]:
            if os.path.exists(f) and not r["violations"]:
                os.remove(f)
    chk.add("trace_events_validated", nev)
    chk.add("trace_events_recorded", total_events)
    chk.add("traces_validated_against_impl", nseg)
    chk.add("trace_states", states)
    return nev, nseg, states


def _short(ev, lim=1200):
    s = json.dumps(ev, default=str)
    return ev if len(s) <= lim else s[:lim] + "..."


def selftest_corrupt(chk, dom, spec, trace_path, mutate, max_events=400, timeout=600, env=None, cfg=None):
    """Binding self-test: corrupt one logged observation; the trace spec must reject exactly there.
    mutate(events, rng) -> index of the corrupted event (events modified in place) or None."""
    if chk.violations:
        # the trace already contains rejected segments; the binding was demonstrated by those rejections
        chk.set("binding_selftest", dict(skipped="violations already reported in this run"))
        return
    events = vlib.read_ndjson(trace_path)
    segs = split_segments(events)
    rng = random.Random(vlib.seed() * 7919 + 13)
    order = list(range(len(segs)))
    rng.shuffle(order)
    order.sort(key=lambda k: len(segs[k]) > max_events)  # prefer segments that fit the budget
    sel, idx = None, None
    for k in order:
        cand = json.loads(json.dumps(segs[k]))
        idx = mutate(cand, rng)
        if idx is not None:
            sel = cand
            break
    if sel is None:
        raise ToolError("self-test: nothing to corrupt in " + trace_path)
    p = trace_path + ".selftest"
    vlib.write_ndjson(p, sel)
    e = {"TRACE": p}
    if env:
        e.update(env)
    res = vlib.tlc(spec, cfg=cfg, workers=1, deque=True, env=e, timeout=timeout, tag=dom + "_self_%d" % os.getpid())
    ok = (res.rejected and res.matched == idx) or (res.invariant_violated is not None)
    chk.set("binding_selftest", dict(corrupted_event_index=idx, rejected=bool(res.rejected or res.invariant_violated),
                                     matched_prefix=res.matched, passed=ok))
    if not ok:
        raise ToolError("binding self-test FAILED for %s: corrupted event %d but TLC said %s\n%s" % (
            dom, idx, res.summary(), vlib.tlc_fail_text(res)))
    os.remove(p)


def corrupt_hex_field(fields):
    """mutate fn: flip one hex digit of one of `fields` in a randomly chosen event that has it."""
    def m(events, rng):
        cands = [i for i, e in enumerate(events) if any(isinstance(e.get(f), str) and len(e.get(f)) >= 2 for f in fields)]
        if not cands:
            return None
        i = rng.choice(cands)
        e = events[i]
        f = rng.choice([f for f in fields if isinstance(e.get(f), str) and len(e.get(f)) >= 2])
        s = e[f]
        k = rng.randrange(len(s))
        c = s[k]
        n = "0123456789abcdef"[(int(c, 16) + 1 + rng.randrange(15)) % 16] if c in "0123456789abcdef" else "0"
        if n == c:
            n = "f" if c != "f" else "e"
        e[f] = s[:k] + n + s[k + 1:]
        return i
    return m


def flip_bool_field(evkind, field):
    def m(events, rng):
        cands = [i for i, e in enumerate(events) if e.get("ev") == evkind and isinstance(e.get(field), bool)]
        if not cands:
            return None
        i = rng.choice(cands)
        events[i][field] = not events[i][field]
        return i
    return m


def model_check(chk, spec, cfg=None, workers=8, timeout=1500, need_actions=None, constants=None, xmx="8g",
                dump_out=None, tag=None, coverage=True, min_states=0):
    """Leg M. constants: dict to substitute into a cfg template (writes a derived cfg)."""
    use_cfg = cfg
    if constants is not None:
        base = os.path.join(vlib.SPEC, os.path.dirname(spec), cfg or os.path.basename(spec).replace(".tla", ".cfg"))
        txt = open(base).read()
        for k, v in constants.items():
            txt, n = re.subn(r"(?m)^(\s*%s\s*=\s*).*$" % re.escape(k), lambda m: m.group(1) + str(v), txt)
            if n == 0:
                raise ToolError("constant %s not in %s" % (k, base))
        use_cfg = os.path.basename(base).replace(".cfg", "_%d.gen.cfg" % os.getpid())
        with open(os.path.join(os.path.dirname(base), use_cfg), "w") as f:
            f.write(txt)
    try:
        res = vlib.tlc(spec, cfg=use_cfg, workers=workers, timeout=timeout, coverage=coverage, xmx=xmx, dump_out=dump_out,
                       tag=tag)
    finally:
        if constants is not None:
            try:
                os.remove(os.path.join(vlib.SPEC, os.path.dirname(spec), use_cfg))
            except OSError:
                pass
    if res.invariant_violated:
        # design-level failure: not a code violation by itself (DESIGN.md section 1) -> tool error so it is looked at
        raise ToolError("model %s violates %s at design level:\n%s" % (spec, res.invariant_violated, vlib.tlc_fail_text(res, 80)))
    if not res.ok:
        raise ToolError("TLC failed on %s:\n%s" % (spec, vlib.tlc_fail_text(res)))
    if res.distinct < min_states:
        raise ToolError("vacuous model run: only %d distinct states in %s (expected >= %d)" % (res.distinct, spec, min_states))
    for a in need_actions or []:
        hit = [v for k, v in res.coverage.items() if k.endswith("!" + a)]
        if not hit or hit[0][1] == 0:
            raise ToolError("vacuous model run: action %s never taken in %s" % (a, spec))
    chk.add("states", res.distinct)
    chk.add("transitions", res.generated)
    chk.add("model_states", res.distinct)
    return res


def extract_replay(dump_path, out_path, tagname="REPLAY"):
    """Pull lines printed by PrintT("REPLAY" \\o ToJson(x)) out of a TLC log into clean ndjson."""
    n = 0
    pref = '"' + tagname
    with open(dump_path, errors="replace") as fi, open(out_path, "w") as fo:
        for ln in fi:
            if not ln.startswith(pref):
                continue
            ln = ln.rstrip("\n")
            if not ln.endswith('"'):
                raise ToolError("unterminated REPLAY line in " + dump_path)
            body = ln[len(pref):-1].replace('\\"', '"').replace("\\\\", "\\")
            fo.write(body + "\n")
            n += 1
    return n
