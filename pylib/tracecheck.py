"""Generic legs shared by all checks: trace validation with segment isolation, binding
self-test, model checking with coverage/vacuity test, spec->impl replay plumbing."""
import json
import os
import random
import re

import vlib
from vlib import ToolError, log


def split_segments(events):
    """Segments are delimited by {"ev":"Seg"} events (the marker starts a segment)."""
    segs, cur = [], []
    for e in events:
        if e.get("ev") == "Seg" and cur:
            segs.append(cur)
            cur = []
        cur.append(e)
    if cur:
        segs.append(cur)
    return segs


def event_class(dom, e):
    parts = [dom, str(e.get("ev"))]
    for k in ("op", "impl", "where", "tag", "kind", "type"):
        if k in e and isinstance(e[k], (str, int)):
            parts.append(str(e[k]))
    return "/".join(parts)


def validate(chk, dom, spec, trace_path, tag=None, timeout=1500, xmx="6g", max_rejections=8,
             class_fn=None, env=None, cfg=None):
    """Validate an ndjson trace against a trace spec. Rejected segments are reported as violations
    (or known findings) and removed so the rest of the trace is still checked.
    Returns (events_validated, segments_validated, tlc_states)."""
    events = vlib.read_ndjson(trace_path)
    total_events = len(events)
    segs = split_segments(events)
    states = 0
    rejections = 0
    cur_path = trace_path
    while True:
        e = {"TRACE": cur_path}
        if env:
            e.update(env)
        res = vlib.tlc(spec, cfg=cfg, workers=1, deque=True, env=e, timeout=timeout, xmx=xmx,
                       tag=(tag or dom) + "_trace_%d" % os.getpid())
        states += res.distinct
        if res.ok:
            break
        if res.invariant_violated:
            # an invariant of the spec failed in a state reached by the implementation trace
            idx = max(res.depth - 1, 0)
            flat = [x for s in segs for x in s]
            ev = flat[min(idx, len(flat) - 1)] if flat else {}
            cls = (class_fn or event_class)(dom, ev) + "/invariant:" + res.invariant_violated
            chk.violation(cls, cur_path, dict(leg="T", invariant=res.invariant_violated, index=idx, event=ev))
            bad = idx
        elif res.rejected and res.matched is not None:
            flat = [x for s in segs for x in s]
            bad = res.matched  # 0-based index of the first unmatched event
            ev = flat[bad] if bad < len(flat) else {}
            cls = (class_fn or event_class)(dom, ev)
            chk.violation(cls, cur_path, dict(leg="T", index=bad, event=_short(ev), spec=spec))
        else:
            raise ToolError("TLC failed on trace %s:\n%s" % (cur_path, vlib.tlc_fail_text(res)))
        rejections += 1
        # drop the segment containing `bad`
        pos = 0
        keep = []
        for s in segs:
            if not (pos <= bad < pos + len(s)):
                keep.append(s)
            pos += len(s)
        segs = keep
        if rejections >= max_rejections or not segs:
            break
        cur_path = trace_path + ".rest%d" % rejections
        vlib.write_ndjson(cur_path, [x for s in segs for x in s])
    nseg = len(segs)
    nev = sum(len(s) for s in segs)
    chk.add("trace_events_validated", nev)
    chk.add("trace_events_recorded", total_events)
    chk.add("traces_validated_against_impl", nseg)
    chk.add("trace_states", states)
    return nev, nseg, states


def _short(ev, lim=1200):
    s = json.dumps(ev, default=str)
    return ev if len(s) <= lim else s[:lim] + "..."


def selftest_corrupt(chk, dom, spec, trace_path, mutate, max_events=400, timeout=600, env=None, cfg=None):
    """Binding self-test: corrupt one logged observation; the trace spec must reject exactly there.
    mutate(events, rng) -> index of the corrupted event (events modified in place) or None."""
    events = vlib.read_ndjson(trace_path)
    segs = split_segments(events)
    rng = random.Random(vlib.seed() * 7919 + 13)
    order = list(range(len(segs)))
    rng.shuffle(order)
    order.sort(key=lambda k: len(segs[k]) > max_events)  # prefer segments that fit the budget
    sel, idx = None, None
    for k in order:
        cand = json.loads(json.dumps(segs[k]))
        idx = mutate(cand, rng)
        if idx is not None:
            sel = cand
            break
    if sel is None:
        raise ToolError("self-test: nothing to corrupt in " + trace_path)
    p = trace_path + ".selftest"
    vlib.write_ndjson(p, sel)
    e = {"TRACE": p}
    if env:
        e.update(env)
    res = vlib.tlc(spec, cfg=cfg, workers=1, deque=True, env=e, timeout=timeout, tag=dom + "_self_%d" % os.getpid())
    ok = (res.rejected and res.matched == idx) or (res.invariant_violated is not None)
    chk.set("binding_selftest", dict(corrupted_event_index=idx, rejected=bool(res.rejected or res.invariant_violated),
                                     matched_prefix=res.matched, passed=ok))
    if not ok:
        raise ToolError("binding self-test FAILED for %s: corrupted event %d but TLC said %s\n%s" % (
            dom, idx, res.summary(), vlib.tlc_fail_text(res)))
    os.remove(p)


def corrupt_hex_field(fields):
    """mutate fn: flip one hex digit of one of `fields` in a randomly chosen event that has it."""
    def m(events, rng):
        cands = [i for i, e in enumerate(events) if any(isinstance(e.get(f), str) and len(e.get(f)) >= 2 for f in fields)]
        if not cands:
            return None
        i = rng.choice(cands)
        e = events[i]
        f = rng.choice([f for f in fields if isinstance(e.get(f), str) and len(e.get(f)) >= 2])
        s = e[f]
        k = rng.randrange(len(s))
        c = s[k]
        n = "0123456789abcdef"[(int(c, 16) + 1 + rng.randrange(15)) % 16] if c in "0123456789abcdef" else "0"
        if n == c:
            n = "f" if c != "f" else "e"
        e[f] = s[:k] + n + s[k + 1:]
        return i
    return m


def flip_bool_field(evkind, field):
    def m(events, rng):
        cands = [i for i, e in enumerate(events) if e.get("ev") == evkind and isinstance(e.get(field), bool)]
        if not cands:
            return None
        i = rng.choice(cands)
        events[i][field] = not events[i][field]
        return i
    return m


def model_check(chk, spec, cfg=None, workers=8, timeout=1500, need_actions=None, constants=None, xmx="8g",
                dump_out=None, tag=None):
    """Leg M. constants: dict to substitute into a cfg template (writes a derived cfg)."""
    use_cfg = cfg
    if constants is not None:
        base = os.path.join(vlib.SPEC, os.path.dirname(spec), cfg or os.path.basename(spec).replace(".tla", ".cfg"))
        txt = open(base).read()
        for k, v in constants.items():
            txt, n = re.subn(r"(?m)^(\s*%s\s*=\s*).*$" % re.escape(k), lambda m: m.group(1) + str(v), txt)
            if n == 0:
                raise ToolError("constant %s not in %s" % (k, base))
        use_cfg = os.path.basename(base).replace(".cfg", "_%d.gen.cfg" % os.getpid())
        with open(os.path.join(os.path.dirname(base), use_cfg), "w") as f:
            f.write(txt)
    try:
        res = vlib.tlc(spec, cfg=use_cfg, workers=workers, timeout=timeout, coverage=True, xmx=xmx, dump_out=dump_out,
                       tag=tag)
    finally:
        if constants is not None:
            try:
                os.remove(os.path.join(vlib.SPEC, os.path.dirname(spec), use_cfg))
            except OSError:
                pass
    if res.invariant_violated:
        # design-level failure: not a code violation by itself (DESIGN.md section 1) -> tool error so it is looked at
        raise ToolError("model %s violates %s at design level:\n%s" % (spec, res.invariant_violated, vlib.tlc_fail_text(res, 80)))
    if not res.ok:
        raise ToolError("TLC failed on %s:\n%s" % (spec, vlib.tlc_fail_text(res)))
    for a in need_actions or []:
        hit = [v for k, v in res.coverage.items() if k.endswith("!" + a)]
        if not hit or hit[0][1] == 0:
            raise ToolError("vacuous model run: action %s never taken in %s" % (a, spec))
    chk.add("states", res.distinct)
    chk.add("transitions", res.generated)
    chk.add("model_states", res.distinct)
    return res


def extract_replay(dump_path, out_path, tagname="REPLAY"):
    """Pull lines printed by PrintT("REPLAY" \\o ToJson(x)) out of a TLC log into clean ndjson."""
    n = 0
    pref = '"' + tagname
    with open(dump_path, errors="replace") as fi, open(out_path, "w") as fo:
        for ln in fi:
            if not ln.startswith(pref):
                continue
            ln = ln.rstrip("\n")
            if not ln.endswith('"'):
                raise ToolError("unterminated REPLAY line in " + dump_path)
            body = ln[len(pref):-1].replace('\\"', '"').replace("\\\\", "\\")
            fo.write(body + "\n")
            n += 1
    return n
